"""Shared helpers for the implementation-side drivers (run with /venv/bin/python, PYTHONPATH=/repo/src)."""
from __future__ import annotations

import hashlib
import io
import json
import sys

import numpy as np
from ase import Atoms
from ase.calculators.calculator import Calculator, all_changes

import quansino.mc  # noqa: F401  import order matters on the pinned tree (DESIGN §6 item 6)


class Harmonic(Calculator):
    """ASE-conformant, result-caching calculator: E = 1/2 k sum |r - r0|^2 (+ optional pair term); counts evaluations."""

    implemented_properties = ["energy", "forces", "stress"]

    def __init__(self, k=1.0, r0=None, pair=0.0, **kw):
        super().__init__(**kw)
        self.k, self.r0, self.pair = k, r0, pair
        self.evaluations = 0

    def calculate(self, atoms=None, properties=("energy",), system_changes=all_changes):
        super().calculate(atoms, properties, system_changes)
        self.evaluations += 1
        pos = self.atoms.positions
        r0 = np.zeros_like(pos) if self.r0 is None or len(self.r0) != len(pos) else self.r0
        d = pos - r0
        e = 0.5 * self.k * float(np.sum(d * d))
        f = -self.k * d
        if self.pair:
            n = len(pos)
            for i in range(n):
                for j in range(i + 1, n):
                    v = pos[i] - pos[j]
                    r2 = float(v @ v) + 1.0
                    e += self.pair / r2
                    g = 2 * self.pair / r2**2 * v
                    f[i] += g
                    f[j] -= g
        vol = abs(np.linalg.det(self.atoms.cell.array)) if self.atoms.cell.rank == 3 else 1.0
        e += 0.01 * vol if self.atoms.cell.rank == 3 else 0.0
        self.results = {"energy": e, "forces": f, "stress": np.zeros(6)}


def tok(a) -> str:
    """token of an array's exact bytes (dtype + shape + content)"""
    a = np.ascontiguousarray(a)
    return hashlib.sha1(str(a.dtype).encode() + str(a.shape).encode() + a.tobytes()).hexdigest()[:16]


def atoms_tokens(atoms: Atoms) -> dict:
    d = {name: tok(arr) for name, arr in sorted(atoms.arrays.items())}
    d["cell"] = tok(atoms.cell.array)
    d["pbc"] = tok(atoms.pbc)
    d["n"] = len(atoms)
    return d


class RecordingRNG:
    """forwards to the real generator and logs (method, args, result)"""

    def __init__(self, rng, log):
        object.__setattr__(self, "_rng", rng)
        object.__setattr__(self, "_log", log)

    def __getattr__(self, name):
        attr = getattr(self._rng, name)
        if not callable(attr):
            return attr

        def wrapped(*a, **k):
            r = attr(*a, **k)
            self._log.append((name, a, k, r))
            return r

        return wrapped


class ScriptedRNG:
    """answers draws from a script of numbers t in [0,1): uniform(lo,hi) -> lo + (hi-lo)*t, random() -> t,
    standard_normal -> scripted values as given, choice(a) -> a[int(t*len(a))]"""

    def __init__(self, script, log=None):
        self.script = list(script)
        self.pos = 0
        self.log = log if log is not None else []

    def _next(self, n):
        vals = self.script[self.pos:self.pos + n]
        if len(vals) < n:
            raise RuntimeError("script exhausted")
        self.pos += n
        return np.array(vals, dtype=float)

    def random(self, size=None):
        n = int(np.prod(size)) if size is not None else 1
        v = self._next(n)
        self.log.append(("random", size))
        return float(v[0]) if size is None else v.reshape(size)

    def uniform(self, low=0.0, high=1.0, size=None):
        n = int(np.prod(size)) if size is not None else 1
        t = self._next(n)
        self.log.append(("uniform", float(low), float(high), size if size is None or isinstance(size, int) else list(size)))
        v = low + (high - low) * t
        return float(v[0]) if size is None else v.reshape(size)

    def standard_normal(self, size=None):
        n = int(np.prod(size)) if size is not None else 1
        v = self._next(n)
        self.log.append(("standard_normal", size))
        return float(v[0]) if size is None else v.reshape(size)

    def choice(self, a, size=None, replace=True, p=None):
        a = np.asarray(a) if not isinstance(a, int) else np.arange(a)
        t = self._next(1)[0]
        self.log.append(("choice", len(a)))
        return a[min(int(t * len(a)), len(a) - 1)]


def jsonable(x):
    if isinstance(x, np.ndarray):
        return x.tolist()
    if isinstance(x, (np.integer,)):
        return int(x)
    if isinstance(x, (np.floating,)):
        return float(x)
    if isinstance(x, (np.bool_,)):
        return bool(x)
    if isinstance(x, dict):
        return {str(k): jsonable(v) for k, v in x.items()}
    if isinstance(x, (list, tuple)):
        return [jsonable(v) for v in x]
    return x


def serve(handler):
    """read {"cases": [...]} from stdin, answer {"results": [...]}; exceptions become {"exception": ...}"""
    import traceback

    req = json.load(sys.stdin)
    out = []
    for case in req["cases"]:
        try:
            out.append(jsonable(handler(case)))
        except Exception as e:  # noqa: BLE001
            out.append({"exception": type(e).__name__, "message": str(e)[:300], "trace": traceback.format_exc()[-1200:]})
    json.dump({"results": out}, sys.stdout)


def split_impl(script, cases, jobs=16):
    """(harness side) helper kept here for symmetry; unused in drivers"""
    return [cases[i::jobs] for i in range(jobs)]


class Stream(io.StringIO):
    """seekable text stream that logs its operations"""

    def __init__(self, oplog=None):
        super().__init__()
        self.oplog = oplog if oplog is not None else []

    def write(self, s):
        self.oplog.append(("write", s))
        return super().write(s)

    def flush(self):
        self.oplog.append(("flush",))
        return super().flush()

    def seek(self, *a):
        self.oplog.append(("seek", *a))
        return super().seek(*a)

    def truncate(self, *a):
        self.oplog.append(("truncate", *a))
        return super().truncate(*a)
