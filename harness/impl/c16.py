"""C16 driver: a real grand-canonical run (serialised state grows and shrinks) writing log / trajectory / restart file to real paths
through operation-counting wrappers; optionally the process is killed (os._exit) right after the k-th file operation."""
import json
import os
import sys
import warnings

import numpy as np
from ase import Atoms

from util import Harmonic

import quansino.mc  # noqa: F401
from quansino.io.logger import Logger
from quansino.io.restart import RestartObserver
from quansino.io.trajectory import TrajectoryObserver
from quansino.mc.gcmc import GrandCanonical
from quansino.moves.displacement import DisplacementMove
from quansino.moves.exchange import ExchangeMove

warnings.simplefilter("ignore")


class Counting:
    """wraps the file object an observer opened; logs (file, op, payload) with a global counter; may kill the process"""

    def __init__(self, inner, tag, shared):
        self.inner, self.tag, self.sh = inner, tag, shared

    def _op(self, name, payload=None):
        self.sh["ops"].append([self.tag, name, payload])
        if self.sh["kill_at"] is not None and len(self.sh["ops"]) == self.sh["kill_at"]:
            # die WITHOUT flushing python-level buffers: whatever is only in the process is lost
            os._exit(0)

    def write(self, s):
        r = self.inner.write(s)
        self._op("write", s)
        return r

    def flush(self):
        r = self.inner.flush()
        self._op("flush")
        return r

    def seek(self, *a):
        r = self.inner.seek(*a)
        self._op("seek", list(a))
        return r

    def truncate(self, *a):
        r = self.inner.truncate(*a)
        self._op("truncate", list(a))
        return r

    def __getattr__(self, name):
        return getattr(self.inner, name)


def main():
    c = json.load(sys.stdin)
    d = c["dir"]
    os.makedirs(d, exist_ok=True)
    shared = {"ops": [], "kill_at": c.get("kill_at")}
    n = c["natoms"]
    rng = np.random.default_rng(c["geom_seed"])
    atoms = Atoms("Ar" * n, positions=rng.uniform(0, 6, (n, 3)), cell=[7.0, 7.0, 7.0], pbc=True)
    atoms.calc = Harmonic(k=0.2)
    mode = c["mode"]
    targets = {k: os.path.join(d, f) for k, f in (("logfile", "run.log"), ("trajectory", "run.xyz"), ("restart_file", "run.json"))}
    if c.get("stale_files"):
        # a previous run left its output under the same names (a script run again in the same directory): with logging_mode 'w' every file starts afresh
        with open(targets["logfile"], "w") as fh:
            fh.write("Class  Step  old\nOld 0 1.0\nOld 1 2.0\n")
        with open(targets["trajectory"], "w") as fh:
            fh.write("1\nLattice=\"1 0 0 0 1 0 0 0 1\" Properties=species:S:1:pos:R:3\nAr 0.0 0.0 0.0\n" * 3)
        with open(targets["restart_file"], "w") as fh:
            fh.write(json.dumps({"old": True, "padding": "x" * 30000}))
    if c.get("handles") == "fileobj":
        # the user hands over files they opened themselves (ordinary block-buffered text handles)
        targets = {k: open(v, c.get("handle_mode", "w")) for k, v in targets.items()}  # noqa: SIM115
    mc = GrandCanonical(atoms, Atoms("H2", positions=[[0, 0, 0], [0.74, 0, 0]]), temperature=3000.0, chemical_potential=c["mu"],
                        number_of_exchange_particles=n, seed=c["seed"], max_cycles=2, logging_mode=mode, logging_interval=1, **targets)
    mc.add_move(ExchangeMove(np.arange(n), bias_towards_insert=c["bias"]), name="e")
    mc.add_move(DisplacementMove(np.arange(n)), name="d")
    for obs, tag in ((mc.default_logger, "log"), (mc.default_trajectory, "traj"), (mc.default_restart, "restart")):
        obs._file = Counting(obs._file, tag, shared)
    states = []
    marks = []
    for _ in mc.srun(c["steps"]):
        snap = {"step": mc.step_count, "natoms": len(atoms)}
        for f in ("run.log", "run.xyz", "run.json"):
            with open(os.path.join(d, f)) as fh:
                snap[f] = fh.read()
        states.append(snap)
        marks.append(len(shared["ops"]))
    # reference: file contents after the complete run + contents after every observer round (taken from the op log by the harness)
    out = {"ops": shared["ops"], "marks": marks, "states": states}
    for f in ("run.log", "run.xyz", "run.json"):
        with open(os.path.join(d, f)) as fh:
            out[f] = fh.read()
    json.dump(out, sys.stdout)


main()
