"""C06 driver: the same seed twice in one process with differently seeded (and re-seeded) global generators; trip-wires on the
global numpy / random functions; generator state right after construction."""
import copy
import random
import os
import traceback
import warnings

import numpy as np
from ase import Atoms
from ase.constraints import FixCom

from util import Harmonic, Stream, serve
from sim import Sim, row_tokens, h

from quansino.mc.fbmc import AdaptiveForceBias, ForceBias

warnings.simplefilter("ignore")

TRIPS = []


def pkg_frame():
    """innermost stack frame that belongs to the package under test, or None (the harness itself may use the global generators)"""
    fr = [f for f in traceback.extract_stack(limit=12) if f.filename.startswith(os.environ.get("QV_REPO", "/repo") + "/src/quansino")]
    return f"{fr[-1].filename}:{fr[-1].lineno} in {fr[-1].name}" if fr else None
NP_FUNCS = ["random", "rand", "randn", "uniform", "normal", "standard_normal", "choice", "permutation", "shuffle", "randint", "random_sample", "sample"]
PY_FUNCS = ["random", "uniform", "choice", "shuffle", "randint", "gauss", "sample", "randrange", "choices"]
ORIG = {}


def arm():
    for f in NP_FUNCS:
        if hasattr(np.random, f):
            ORIG[("np", f)] = getattr(np.random, f)

            def w(*a, _f=f, **k):
                where = pkg_frame()
                if where:
                    TRIPS.append(["numpy.random." + _f, where])
                return ORIG[("np", _f)](*a, **k)
            setattr(np.random, f, w)
    for f in PY_FUNCS:
        ORIG[("py", f)] = getattr(random, f)

        def w2(*a, _f=f, **k):
            where = pkg_frame()
            if where:
                TRIPS.append(["random." + _f, where])
            return ORIG[("py", _f)](*a, **k)
        setattr(random, f, w2)
    ORIG[("np", "default_rng")] = np.random.default_rng

    def dr(seed=None, *a, **k):
        if seed is None and pkg_frame():
            TRIPS.append(["numpy.random.default_rng()", pkg_frame()])
        return ORIG[("np", "default_rng")](seed, *a, **k)
    np.random.default_rng = dr


def disarm():
    for (m, f), o in ORIG.items():
        setattr(np.random if m == "np" else random, f, o)


def seed_value(s):
    if isinstance(s, dict):
        return getattr(np, s["np"])(s["value"])
    return s


def build(c, seed, log):
    if c["driver"] in ("fbmc", "afbmc"):
        n = c["natoms"]
        atoms = Atoms("Ar" * n, positions=np.array(c["positions"], dtype=float), cell=[9.0, 9.0, 9.0], pbc=False)
        atoms.set_constraint(FixCom())
        atoms.calc = Harmonic(k=0.8, r0=np.array(c["positions"], dtype=float) + 0.2, pair=0.05)
        if c["driver"] == "fbmc":
            mc = ForceBias(atoms, delta=0.1, temperature=300.0, seed=seed, logfile=log)
        else:
            mc = AdaptiveForceBias(atoms, 0.05, 0.15, temperature=300.0, seed=seed, logfile=log)
        return mc, atoms
    p = copy.deepcopy(c["program"])
    p["seed"] = seed
    p["logfile"] = log
    s = Sim(p)
    return s.mc, s.atoms


def observe(mc, atoms):
    o = {"pos": h(atoms.positions.tobytes()), "cell": h(atoms.cell.array.tobytes()), "numbers": h(atoms.numbers.tobytes()), "n": len(atoms)}
    if hasattr(mc, "move_history"):
        o["hist"] = [[str(a), None if b is None else bool(b)] for a, b in mc.move_history]
    return o


def run_one(c, seed, gseed):
    np.random.seed(gseed)
    random.seed(gseed)
    log = Stream()
    mc, atoms = build(c, seed, log)
    st = mc._rng.bit_generator.state
    out = {"seed_attr": int(mc._seed), "state0": [int(st["state"]["state"]), int(st["state"]["inc"])], "steps": []}
    it = mc.srun(c["steps"]) if hasattr(mc, "srun") else mc.irun(c["steps"])
    for k, _ in enumerate(it):
        out["steps"].append(observe(mc, atoms))
        np.random.seed(gseed + 17 * k + 1)     # the global generators are re-seeded between steps
        random.seed(gseed - k)
        np.random.random(3)
    out["log"] = h(log.getvalue().encode())
    out["loglen"] = len(log.getvalue())
    return out


def handler(c):
    del TRIPS[:]
    seed = seed_value(c["seed"])
    ref = np.random.PCG64(int(seed)).state
    arm()
    try:
        a = run_one(c, seed, 1)
        b = run_one(c, seed, 98765)
        other = run_one(c, seed_value(c["other_seed"]), 1)
        plain = run_one(c, int(seed), 5) if isinstance(c["seed"], dict) else None
        # an UNSEEDED run records the seed it drew; a second simulation built with that recorded seed is "the same seed" and must reproduce it
        un = run_one(c, None, 3)
        again = run_one(c, un["seed_attr"], 4)
        unseeded = {"recorded_seed": un["seed_attr"], "same": un["steps"] == again["steps"] and un["log"] == again["log"],
                    "first_diverging_step": next((i for i, (x, y) in enumerate(zip(un["steps"], again["steps"])) if x != y), None)}
    finally:
        disarm()
    return {"unseeded": unseeded, "a": a, "b": b, "other": other, "plain_int": plain, "trips": TRIPS[:20], "ntrips": len(TRIPS),
            "pcg64_state": [int(ref["state"]["state"]), int(ref["state"]["inc"])]}


serve(handler)
