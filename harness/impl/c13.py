"""C13 driver: one real ForceBias.step() with a calculator returning prescribed forces; scripted or real generator."""
import warnings

import numpy as np
from ase import Atoms
from ase.calculators.calculator import Calculator, all_changes

from util import ScriptedRNG, serve

from quansino.mc.fbmc import ForceBias

warnings.simplefilter("ignore")


class Prescribed(Calculator):
    implemented_properties = ["energy", "forces"]

    def __init__(self, forces):
        super().__init__()
        self.f = np.array(forces, dtype=float)
        self.evaluations = 0

    def calculate(self, atoms=None, properties=("energy",), system_changes=all_changes):
        super().calculate(atoms, properties, system_changes)
        self.evaluations += 1
        self.results = {"energy": 0.0, "forces": self.f.copy()}


def fl(x):
    return float.fromhex(x) if isinstance(x, str) else float(x)


def arr(x):
    return np.array([[fl(v) for v in row] for row in x], dtype=float)


def build(c):
    n = c["natoms"]
    atoms = Atoms(c["symbols"], positions=arr(c["positions"]))
    late = c.get("late_masses")   # None | "before_power" | "after_power": masses changed after construction + update_masses()
    if not late:
        atoms.set_masses([fl(m) for m in c["masses"]])
    atoms.calc = Prescribed(arr(c["forces"]))
    delta = arr(c["delta"]) if isinstance(c["delta"], list) else fl(c["delta"])
    if c.get("late_T"):
        # annealing / heating: the driver is built at another temperature and re-tuned through its public attribute before use
        sim = ForceBias(atoms, delta, temperature=fl(c["T"]) * 3.0 + 50.0, seed=c.get("seed", 1), logfile=None)
        sim.temperature = fl(c["T"])
    else:
        sim = ForceBias(atoms, delta, temperature=fl(c["T"]), seed=c.get("seed", 1), logfile=None)
    if late == "before_power":
        atoms.set_masses([fl(m) for m in c["masses"]])
        sim.update_masses()
    p = c["power"]
    if isinstance(p, dict):
        sim.masses_scaling_power = {k: fl(v) for k, v in p.items()}
    elif isinstance(p, list):
        sim.masses_scaling_power = arr(p)
    else:
        sim.masses_scaling_power = fl(p)
    if late == "after_power":
        atoms.set_masses([fl(m) for m in c["masses"]])
        sim.update_masses()
    if late == "foreign":
        # the masses that scale the displacements are a setting of their own (effective masses): the atoms keep their chemical masses
        sim.update_masses(np.array([fl(m) for m in c["masses"]], dtype=float))
    assert len(atoms) == n
    return atoms, sim


def handler(c):
    atoms, sim = build(c)
    if c["mode"] == "scripted":
        rng = ScriptedRNG([fl(t) for t in c["script"]])
        sim._rng = rng
        before = atoms.positions.copy()
        ev0 = atoms.calc.evaluations
        sim.step()
        after = atoms.positions.copy()
        return {"consumed": rng.pos, "calls": [list(x) if not isinstance(x, str) else x for x in rng.log],
                "zeta": [float(z).hex() for z in np.ravel(sim.zeta)], "gamma": [float(g).hex() for g in np.ravel(sim.gamma)],
                "dx": [float(x).hex() for x in np.ravel(after - before)], "evaluations": atoms.calc.evaluations - ev0,
                "power": [float(x).hex() for x in np.ravel(np.broadcast_to(np.asarray(sim.masses_scaling_power, dtype=float), (len(atoms), 3)))]}
    # real generator: several steps, record zeta / dx / gamma per step (flattened); forces constant
    out = {"zeta": [], "dx": [], "gamma": None, "steps": 0}
    keep = c.get("keep", True)
    zs = []
    swap = c.get("swap")
    out["gamma_steps"] = []
    for si in range(c["steps"]):
        if swap and si == swap["after"] + 1:
            atoms.calc = Prescribed(arr(swap["forces"]))      # the user exchanges the calculator between two steps (an outside change)
        before = atoms.positions.copy()
        sim.step()
        if keep:
            out["gamma_steps"].append([float(g).hex() for g in np.ravel(np.broadcast_to(np.asarray(sim.gamma, dtype=float), (len(atoms), 3)))])
        d = atoms.positions - before
        out["steps"] += 1
        if keep:
            out["zeta"].append([float(z).hex() for z in np.ravel(sim.zeta)])
            out["dx"].append([float(x).hex() for x in np.ravel(d)])
        else:
            zs.append(np.ravel(sim.zeta).copy())
    out["gamma"] = [float(g).hex() for g in np.ravel(sim.gamma)[:30]]
    out["power"] = [float(x).hex() for x in np.ravel(np.broadcast_to(np.asarray(sim.masses_scaling_power, dtype=float), (len(atoms), 3)))[:3000]]
    if not keep:
        z = np.concatenate(zs)
        out["zeta_sorted_sample"] = None
        out["zstats"] = {"n": int(z.size), "frac_pos": float(np.mean(z > 0)), "mean": float(np.mean(z)),
                         "max_abs": float(np.max(np.abs(z)))}
        # empirical CDF on a fixed grid + exact KS needs the sample: return quantised sorted sample (float32 is enough for KS)
        out["zs"] = np.sort(z).astype(np.float64).tolist() if z.size <= 400000 else None
    return out


serve(handler)
