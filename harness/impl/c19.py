"""C19 driver: delete + reinsert_atoms on real Atoms with many arrays; search_molecules on given geometries."""
import numpy as np
from ase import Atoms

from util import serve

from quansino.utils.atoms import reinsert_atoms, search_molecules


def row_tokens(arr, table):
    out = []
    for row in arr:
        key = (str(arr.dtype), np.ascontiguousarray(row).tobytes())
        if key not in table:
            table[key] = len(table) + 1
        out.append(table[key])
    return out


def snapshot(atoms, table, dtypes):
    snap = {}
    for name in sorted(atoms.arrays):
        a = atoms.arrays[name]
        dt = str(a.dtype) + str(a.shape[1:])
        if dt not in dtypes:
            dtypes[dt] = len(dtypes) + 1
        snap[name] = [dtypes[dt], row_tokens(a, table)]
    return snap


def build_atoms(case):
    rng = np.random.default_rng(case["seed"])
    n = case["n"]
    symbols = rng.choice(["H", "O", "C", "Ar"], n)
    atoms = Atoms(list(symbols), positions=rng.normal(size=(n, 3)), cell=[9, 9, 9])
    for name in case["arrays"]:
        if name == "tags":
            atoms.set_tags(rng.integers(0, 5, n))
        elif name == "momenta":
            atoms.set_momenta(rng.normal(size=(n, 3)))
        elif name == "charges":
            atoms.set_initial_charges(rng.normal(size=n))
        elif name == "masses":
            atoms.set_masses(rng.uniform(1, 50, n))
        elif name == "custom2d":
            atoms.set_array("custom2d", rng.normal(size=(n, 2)))
        elif name == "customint":
            atoms.set_array("customint", rng.integers(-9, 9, (n,)), int)
        elif name == "custombool":
            atoms.set_array("custombool", rng.random(n) < 0.5, bool)
        elif name == "custom3d":
            atoms.set_array("custom3d", rng.normal(size=(n, 2, 2)))
        elif name == "float32":
            atoms.set_array("float32", rng.normal(size=n).astype(np.float32))
    return atoms


def handler(case):
    if case["kind"] == "reinsert":
        atoms = build_atoms(case)
        table, dtypes = {}, {}
        before = snapshot(atoms, table, dtypes)
        raw = case.get("raw_indices", case["indices"])
        idx = np.array(raw, dtype=int) if case.get("as_array", True) else list(raw)
        removed = atoms[idx]
        del atoms[idx]
        kept = snapshot(atoms, table, dtypes)
        sel = snapshot(removed, table, dtypes)
        reinsert_atoms(atoms, removed, idx)
        after = snapshot(atoms, table, dtypes)
        return {"before": before, "kept": kept, "removed": sel, "after": after}
    if case["kind"] == "molecules":
        atoms = Atoms(case["symbols"], positions=case["positions"], cell=case["cell"], pbc=case["pbc"])
        cutoff = case["cutoff"]
        if isinstance(cutoff, dict):
            cutoff = {tuple(k.split("-")): v for k, v in cutoff.items()}
        default = case["default"]
        if default is not None and case.get("default_as_array"):
            default = np.array(default)
        rs = case["required_size"]
        if isinstance(rs, list):
            rs = tuple(rs)
        keep = None if default is None else np.array(default).copy()
        out = search_molecules(atoms, cutoff, rs, default)
        res = {"labels": [int(x) for x in out]}
        if default is not None:
            # the caller's default array is an input: it must come back untouched, and must not be the returned object
            res["default_modified"] = bool(np.any(np.asarray(default) != keep))
            res["default_returned"] = out is default
        return res
    raise ValueError(case["kind"])


serve(handler)
